#!/bin/sh
# usage: run.sh <repository root>
# C11: a //go:generate line in a method's doc comment is carried into the doc comment of the generated function.
[ -n "$1" ] && [ -d "$1" ] || { echo "usage: run.sh <repository root>"; exit 2; }
root=$(cd "$1" && pwd) || exit 2
export GOFLAGS=-mod=mod GOPROXY=off GOSUMDB=off GOTOOLCHAIN=local
unset GOWORK
tmp=$(mktemp -d) || exit 2
trap 'rm -rf "$tmp"' EXIT
(cd "$root" && go build -o "$tmp/convergen" .) >"$tmp/build.log" 2>&1 || { cat "$tmp/build.log"; echo "build failed"; exit 2; }
mkdir "$tmp/play" && cd "$tmp/play" || exit 2
printf 'module play\ngo 1.19\n' > go.mod
cat > setup.go <<'EOT'
//go:build convergen

package play

type D struct{ A int }
type M struct{ A int }

type Convergen interface {
	// ToM converts.
	// :skip A
	//go:generate echo from-the-method-comment
	ToM(*D) *M
}
EOT
"$tmp/convergen" setup.go >"$tmp/out.txt" 2>&1 || { cat "$tmp/out.txt"; echo "convergen failed unexpectedly"; exit 2; }
grep -q '^func ToM(' setup.gen.go || { cat setup.gen.go; echo "no function ToM in the output"; exit 2; }
if grep -n 'go:generate' setup.gen.go; then
	echo "VIOLATED: a go:generate directive of the setup file is present in the output (go generate would run it again from the generated file)"
	exit 1
fi
echo "not violated"
exit 0
