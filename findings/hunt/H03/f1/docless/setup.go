//go:build convergen

// Package docless holds the converters.
// It is documented like any other package.
package docless

type A struct {
	ID   int
	Name string
}

type B struct {
	ID   int
	Name string
}

type Convergen interface {
	AtoB(*A) *B
}
