//go:build convergen

// Package docful holds the converters.
package docful

type A struct {
	ID   int
	Name string
}

type B struct {
	ID   int
	Name string
}

//go:generate go run github.com/reedom/convergen
type Convergen interface {
	AtoB(*A) *B
	// BtoA copies back.
	BtoA(*B) *A
}
