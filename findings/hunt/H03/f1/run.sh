#!/bin/sh
# usage: run.sh <repository root>
# exit 1: property C11 violated; exit 0: not violated; exit 2: could not build/run.
ROOT=${1:?usage: run.sh <repository root>}
HERE=$(cd "$(dirname "$0")" && pwd)
export GOFLAGS=-mod=mod GOPROXY=off GOSUMDB=off GOTOOLCHAIN=local
unset GOWORK
TMP=$(mktemp -d)
trap 'rm -rf "$TMP"' EXIT
(cd "$ROOT" && go build -o "$TMP/convergen" .) || { echo "cannot build convergen from $ROOT"; exit 2; }
mkdir "$TMP/mod" && cp -r "$HERE/go.mod" "$HERE/docless" "$HERE/docful" "$TMP/mod/" || exit 2
bad=0

# Case 1: converter interface without a doc comment, file with a package doc comment.
cd "$TMP/mod/docless" || exit 2
"$TMP/convergen" -dry -print setup.go >"$TMP/out1.go" 2>"$TMP/err1.txt"
rc=$?
if [ $rc -ne 0 ]; then
	echo "case docless: unexpected exit status $rc"; cat "$TMP/err1.txt"; bad=1
else
	n=$(grep -c '^// Package docless holds the converters\.$' "$TMP/out1.go")
	if [ "$n" -ne 1 ]; then
		echo "case docless: VIOLATION: the package doc comment occurs $n times in the output, expected once (attached to the package clause)"
		sed -n '1,8p' "$TMP/out1.go"
		bad=1
	fi
fi

# Case 2: documented converter interface, one method without a doc comment, file with a package doc comment.
cd "$TMP/mod/docful" || exit 2
"$TMP/convergen" -dry -print setup.go >"$TMP/out2.go" 2>"$TMP/err2.txt"
rc=$?
if [ $rc -ne 0 ]; then
	echo "case docful: unexpected exit status $rc"; cat "$TMP/err2.txt"; bad=1
else
	n=$(grep -c '^// Package docful holds the converters\.$' "$TMP/out2.go")
	prev=$(grep -B1 '^func AtoB(' "$TMP/out2.go" | head -n 1)
	if [ "$n" -ne 1 ]; then
		echo "case docful: VIOLATION: the package doc comment occurs $n times in the output, expected once"
		bad=1
	fi
	case "$prev" in
	//*|*'*/')
		echo "case docful: VIOLATION: method AtoB has no comment in the setup file, but func AtoB is documented with: $prev"
		bad=1
		;;
	esac
fi

if [ $bad -ne 0 ]; then exit 1; fi
echo "ok: package doc comment carried over once, undocumented method yields undocumented function"
exit 0
