//go:build convergen

package play

type A struct {
	ID   int
	Kind Kind
}

type B struct {
	ID   int
	Kind Kind
}

//go:generate go run github.com/reedom/convergen
type Convergen interface {
	AtoB(*A) *B
}

// Kind enumerates the kinds of pets.
//
//go:generate stringer -type=Kind
type Kind int

// describe returns a label for k.
// go:generate is not involved here, the table is maintained by hand.
func describe(k Kind) string {
	return [...]string{"cat", "dog"}[k]
}
