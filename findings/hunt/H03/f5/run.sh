#!/bin/sh
# usage: run.sh <repository root>
# exit 1: property C11 violated; exit 0: not violated; exit 2: could not build/run.
ROOT=${1:?usage: run.sh <repository root>}
HERE=$(cd "$(dirname "$0")" && pwd)
export GOFLAGS=-mod=mod GOPROXY=off GOSUMDB=off GOTOOLCHAIN=local
unset GOWORK
TMP=$(mktemp -d)
trap 'rm -rf "$TMP"' EXIT
(cd "$ROOT" && go build -o "$TMP/convergen" .) || { echo "cannot build convergen from $ROOT"; exit 2; }
mkdir "$TMP/mod" && cp "$HERE/go.mod" "$HERE/setup.go" "$TMP/mod/" || exit 2
cd "$TMP/mod" || exit 2
"$TMP/convergen" setup.go >"$TMP/out.txt" 2>"$TMP/err.txt"
rc=$?
if [ $rc -ne 0 ]; then echo "unexpected exit status $rc"; cat "$TMP/err.txt"; exit 1; fi
bad=0

# 1. The doc comment of Kind must still be attached to Kind (no blank line between comment and declaration).
#    Observed through the AST, as go doc sees it.
doc=$(go doc -u . Kind 2>/dev/null | grep -c 'Kind enumerates the kinds of pets')
prev=$(grep -B1 '^type Kind int' setup.gen.go | head -n 1)
if [ "$doc" -lt 1 ] || [ -z "$prev" ]; then
	echo "VIOLATION: the doc comment of 'type Kind int' is detached in the output (go doc shows no documentation):"
	grep -n -B4 '^type Kind int' setup.gen.go | sed 's/^/    /'
	bad=1
fi

# 2. A prose comment line that merely starts with the words 'go:generate' (with a blank after //, so not a
#    directive) must be carried over, and the doc comment of describe must stay attached.
if ! grep -q 'go:generate is not involved here' setup.gen.go; then
	echo "VIOLATION: the doc comment line '// go:generate is not involved here, ...' of func describe was deleted:"
	grep -n -B3 '^func describe' setup.gen.go | sed 's/^/    /'
	bad=1
fi
prev=$(grep -B1 '^func describe' setup.gen.go | head -n 1)
if [ -z "$prev" ]; then
	echo "VIOLATION: the doc comment of func describe is detached in the output"
	bad=1
fi

# the directive itself must be gone
if grep -q '^//go:generate' setup.gen.go; then echo "VIOLATION: //go:generate directive left in the output"; bad=1; fi

if [ $bad -ne 0 ]; then
	echo "expected: declarations other than the converter interface keep their attached comments; only the //go:generate directive lines disappear"
	exit 1
fi
echo "ok: doc comments of Kind and describe still attached"
exit 0
