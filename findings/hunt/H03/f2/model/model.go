package model

type Pet struct {
	ID   int
	Name string
}
