#!/bin/sh
# usage: run.sh <repository root>
# exit 1: property C03 violated; exit 0: not violated; exit 2: could not build/run.
ROOT=${1:?usage: run.sh <repository root>}
HERE=$(cd "$(dirname "$0")" && pwd)
export GOFLAGS=-mod=mod GOPROXY=off GOSUMDB=off GOTOOLCHAIN=local
unset GOWORK
TMP=$(mktemp -d)
trap 'rm -rf "$TMP"' EXIT
(cd "$ROOT" && go build -o "$TMP/convergen" .) || { echo "cannot build convergen from $ROOT"; exit 2; }
mkdir "$TMP/mod" && cp -r "$HERE/go.mod" "$HERE/setup.go" "$HERE/model" "$TMP/mod/" || exit 2
cd "$TMP/mod" || exit 2

# The setup file is valid Go under the convergen tag.
go vet -tags convergen . >"$TMP/vet.txt" 2>&1 || { echo "setup file does not type-check:"; cat "$TMP/vet.txt"; exit 2; }

"$TMP/convergen" setup.go >"$TMP/out.txt" 2>"$TMP/err.txt"
rc=$?
if [ $rc -ne 0 ]; then
	echo "VIOLATION: well-formed setup file (operand type from a dot-imported package) rejected, exit status $rc:"
	cat "$TMP/err.txt"
	echo "expected: exit 0 and func ToLocal, func FromLocal in setup.gen.go"
	exit 1
fi
for f in ToLocal FromLocal; do
	grep -q "^func $f(" setup.gen.go || { echo "VIOLATION: func $f missing in the output"; exit 1; }
done
go build ./... >"$TMP/build.txt" 2>&1 || { echo "VIOLATION: output does not compile:"; cat "$TMP/build.txt"; exit 1; }
echo "ok: accepted, both functions generated, output compiles"
exit 0
