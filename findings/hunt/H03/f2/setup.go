//go:build convergen

package play

import . "play/model"

type Local struct {
	ID   int
	Name string
}

//go:generate go run github.com/reedom/convergen
type Convergen interface {
	ToLocal(*Pet) *Local
	FromLocal(*Local) *Pet
}
