//go:build convergen

package conv

import "play/model/v2"

type Local struct {
	ID   int
	Name string
}

type Other struct {
	ID   int
	Name string
}

var _ = model.Shout

//go:generate go run github.com/reedom/convergen
type Convergen interface {
	// :conv model.Shout Name
	ToOther(*Local) *Other
}
