//go:build convergen

package types

import "play/model/v2"

type Local struct {
	ID   int
	Name string
}

//go:generate go run github.com/reedom/convergen
type Convergen interface {
	ToLocal(*model.Pet) *Local
	FromLocal(*Local) *model.Pet
}
