#!/bin/sh
# usage: run.sh <repository root>
# exit 1: property C03/C11 violated; exit 0: not violated; exit 2: could not build/run.
ROOT=${1:?usage: run.sh <repository root>}
HERE=$(cd "$(dirname "$0")" && pwd)
export GOFLAGS=-mod=mod GOPROXY=off GOSUMDB=off GOTOOLCHAIN=local
unset GOWORK
TMP=$(mktemp -d)
trap 'rm -rf "$TMP"' EXIT
(cd "$ROOT" && go build -o "$TMP/convergen" .) || { echo "cannot build convergen from $ROOT"; exit 2; }
mkdir "$TMP/mod" && cp -r "$HERE/go.mod" "$HERE/model" "$HERE/conv" "$HERE/types" "$TMP/mod/" || exit 2
cd "$TMP/mod" || exit 2
go vet -tags convergen ./conv ./types >"$TMP/vet.txt" 2>&1 || { echo "setup files do not type-check:"; cat "$TMP/vet.txt"; exit 2; }
bad=0

# Case conv (C03): a :conv notation names an existing function of the documented shape in an imported package.
cd "$TMP/mod/conv" || exit 2
"$TMP/convergen" setup.go >"$TMP/out1.txt" 2>"$TMP/err1.txt"
rc=$?
if [ $rc -ne 0 ]; then
	echo "case conv: VIOLATION (C03): well-formed setup file rejected, exit status $rc:"
	sort -u "$TMP/err1.txt"
	echo "  expected: exit 0 and 'dst.Name = model.Shout(src.Name)' in func ToOther"
	bad=1
elif ! grep -q 'dst.Name = model.Shout(src.Name)' setup.gen.go; then
	echo "case conv: VIOLATION: converter not applied:"; cat setup.gen.go; bad=1
fi

# Case types (C11/C03): operand types of the same package.
cd "$TMP/mod/types" || exit 2
"$TMP/convergen" setup.go >"$TMP/out2.txt" 2>"$TMP/err2.txt"
rc=$?
if [ $rc -ne 0 ]; then
	echo "case types: VIOLATION (C03): well-formed setup file rejected, exit status $rc:"; cat "$TMP/err2.txt"; bad=1
else
	if ! grep -q '"play/model/v2"' setup.gen.go; then
		echo "case types: VIOLATION (C11): the import \"play/model/v2\" of the setup file is missing in the output although the generated functions use its types"
		bad=1
	fi
	if ! (cd "$TMP/mod" && go build ./types) >"$TMP/build.txt" 2>&1; then
		echo "case types: VIOLATION: exit 0 but the output does not belong to the ordinary build (does not compile):"
		cat "$TMP/build.txt"
		grep -n '^func' setup.gen.go
		bad=1
	fi
fi

if [ $bad -ne 0 ]; then exit 1; fi
echo "ok: converter from package model (path play/model/v2) accepted; operand types qualified with the real package name"
exit 0
