// Package model lives in a directory named after its major version, as Go modules require
// for v2+ (import path ".../model/v2", package name "model").
package model

type Pet struct {
	ID   int
	Name string
}

// Shout is a converter function of the documented shape.
func Shout(s string) string { return s + "!" }
