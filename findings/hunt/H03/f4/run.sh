#!/bin/sh
# usage: run.sh <repository root>
# exit 1: property C11 violated; exit 0: not violated; exit 2: could not build/run.
ROOT=${1:?usage: run.sh <repository root>}
HERE=$(cd "$(dirname "$0")" && pwd)
export GOFLAGS=-mod=mod GOPROXY=off GOSUMDB=off GOTOOLCHAIN=local
unset GOWORK
TMP=$(mktemp -d)
trap 'rm -rf "$TMP"' EXIT
(cd "$ROOT" && go build -o "$TMP/convergen" .) || { echo "cannot build convergen from $ROOT"; exit 2; }
CASES="control control2 twospaces tab paren order plusspaces plusorder"
mkdir "$TMP/mod" && cp "$HERE/go.mod" "$TMP/mod/" || exit 2
for c in $CASES; do cp -r "$HERE/$c" "$TMP/mod/" || exit 2; done
bad=0
for c in $CASES; do
	cd "$TMP/mod/$c" || exit 2
	constraint=$(head -n 1 setup.go)
	# The first line is a valid build constraint: without the tag the setup file is excluded from the build.
	ign=$(go list -e -f '{{.IgnoredGoFiles}}' . 2>/dev/null)
	case "$ign" in *setup.go*) ;; *) echo "case $c: setup.go is not excluded by its constraint ($ign)"; exit 2;; esac
	"$TMP/convergen" setup.go >"$TMP/out.txt" 2>"$TMP/err.txt"
	rc=$?
	if [ $rc -ne 0 ]; then
		echo "case $c [$constraint]: VIOLATION: rejected, exit status $rc"; cat "$TMP/err.txt"; bad=1; continue
	fi
	files=$(go list -e -f '{{.GoFiles}}' . 2>/dev/null)
	case "$files" in
	*setup.gen.go*)
		echo "case $c [$constraint]: ok, setup.gen.go belongs to the ordinary build"
		;;
	*)
		echo "case $c [$constraint]: VIOLATION: setup.gen.go is excluded from the ordinary build (GoFiles=$files); constraint lines left in the output:"
		grep -n -E '^//(go:build| \+build)' setup.gen.go | sed 's/^/    /'
		bad=1
		;;
	esac
done
if [ $bad -ne 0 ]; then
	echo "expected: the convergen build constraint is absent from every output, so the file belongs to the ordinary build"
	exit 1
fi
exit 0
