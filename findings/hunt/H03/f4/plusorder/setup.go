// +build !ignore,convergen

package plusorder

type A struct{ ID int }

type B struct{ ID int }

//go:generate go run github.com/reedom/convergen
type Convergen interface {
	AtoB(*A) *B
}
