#!/bin/sh
# usage: run.sh <repository root>
# C01: a9184d4 checks the operand names against the imported packages, but not the loop variables
# i and e of a slice copy: an import called e (or i) is hidden inside the loop.
root=${1:?usage: run.sh <repository root>}
export GOFLAGS=-mod=mod GOPROXY=off GOSUMDB=off GOTOOLCHAIN=local; unset GOWORK
tmp=$(mktemp -d) || exit 2
trap 'rm -rf "$tmp"' EXIT
(cd "$root" && go build -o "$tmp/convergen" .) >"$tmp/build.log" 2>&1 || { cat "$tmp/build.log"; echo "cannot build the tool"; exit 2; }

mkdir -p "$tmp/play/entity" && cd "$tmp/play" || exit 2
printf 'module play\ngo 1.19\n' > go.mod
printf 'package play\n' > doc.go
cat > entity/entity.go <<'EOT'
package entity

type ID int

type User struct{ IDs []int }
type UserDTO struct{ IDs []ID }
EOT
cat > setup.go <<'EOT'
//go:build convergen

package play

import e "play/entity"

type Convergen interface {
	// :typecast
	F(s *e.User) *e.UserDTO
}
EOT
go build ./... >pre.txt 2>&1 || { cat pre.txt; echo "the module does not build before generation"; exit 2; }
"$tmp/convergen" setup.go >out.txt 2>err.txt
rc=$?
if [ $rc -ne 0 ]; then
	sed -n 1,3p err.txt
	echo "not violated (refused with exit $rc)"
	exit 0
fi
[ -f setup.gen.go ] || { echo "no output file"; exit 2; }
if ! go build ./... >build.txt 2>&1; then
	grep -n 'range\|e\.ID(' setup.gen.go
	sed -n 1,5p build.txt
	echo "VIOLATED: C01 - exit 0, but the loop variable e hides the import e: the output does not compile"
	exit 1
fi
echo "not violated"
exit 0
