#!/bin/sh
# usage: run.sh <repository root>
# C01: 98e477d refuses a :literal text "that is no Go expression" with go/parser.ParseExpr, which
# also accepts types and the blank identifier: ":literal X []int" passes and the compiler then says
# "[]int (type) is not an expression".
root=${1:?usage: run.sh <repository root>}
export GOFLAGS=-mod=mod GOPROXY=off GOSUMDB=off GOTOOLCHAIN=local; unset GOWORK
tmp=$(mktemp -d) || exit 2
trap 'rm -rf "$tmp"' EXIT
(cd "$root" && go build -o "$tmp/convergen" .) >"$tmp/build.log" 2>&1 || { cat "$tmp/build.log"; echo "cannot build the tool"; exit 2; }

bad=""
n=0
try() { # $1 = literal text
	n=$((n+1))
	mkdir -p "$tmp/c$n" && cd "$tmp/c$n" || exit 2
	printf 'module play\ngo 1.19\n' > go.mod
	printf 'package play\n' > doc.go
	cat > setup.go <<EOT
//go:build convergen

package play

type A struct{ Name string }
type B struct {
	Name string
	X    []int
}

type Convergen interface {
	// :literal X $1
	F(s *A) *B
}
EOT
	"$tmp/convergen" setup.go >out.txt 2>err.txt
	rc=$?
	if [ $rc -ne 0 ]; then
		echo "[$1]: refused (exit $rc): $(sed -n 1p err.txt)"
		return
	fi
	[ -f setup.gen.go ] || { echo "[$1]: no output file"; exit 2; }
	if go build ./... >build.txt 2>&1; then
		echo "[$1]: compiles"
	else
		echo "[$1]: exit 0 but: $(grep -v '^#' build.txt | sed -n 1p)"
		bad="$bad [$1]"
	fi
}

# controls: an expression is accepted and compiles, a non-expression is refused
try '[]int{1, 2}'
[ -z "$bad" ] && [ -f "$tmp/c1/setup.gen.go" ] || { echo "control input failed"; exit 2; }
try '[]int{1,'
[ ! -f "$tmp/c2/setup.gen.go" ] || { echo "control input (syntax error) was accepted"; exit 2; }

try '[]int'
try 'map[string]int'
try 'struct{}'
try 'func()'
try '_'

if [ -n "$bad" ]; then
	echo "VIOLATED: C01 - :literal texts that are no expressions (types, the blank identifier) pass the new check; exit 0 with output that does not compile:$bad"
	exit 1
fi
echo "not violated"
exit 0
