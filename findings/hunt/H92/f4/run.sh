#!/bin/sh
# usage: run.sh <repository root>
# C01: a9184d4 refuses a parameter that hides an imported package, but a parameter hides every
# other name the function body needs in the same way: the destination type, a :conv function,
# a predeclared type used for :typecast.
root=${1:?usage: run.sh <repository root>}
export GOFLAGS=-mod=mod GOPROXY=off GOSUMDB=off GOTOOLCHAIN=local; unset GOWORK
tmp=$(mktemp -d) || exit 2
trap 'rm -rf "$tmp"' EXIT
(cd "$root" && go build -o "$tmp/convergen" .) >"$tmp/build.log" 2>&1 || { cat "$tmp/build.log"; echo "cannot build the tool"; exit 2; }

bad=""
try() { # $1 = case name, $2 = notation line, $3 = method
	mkdir -p "$tmp/$1" && cd "$tmp/$1" || exit 2
	printf 'module play\ngo 1.19\n' > go.mod
	printf 'package play\n' > doc.go
	cat > setup.go <<EOT
//go:build convergen

package play

type User struct {
	Name string
	N    int32
}
type DTO struct {
	Name string
	N    int
}

func Upper(s string) string { return s }

type Convergen interface {
	$2
	$3
}
EOT
	"$tmp/convergen" setup.go >out.txt 2>err.txt
	rc=$?
	if [ $rc -ne 0 ]; then
		echo "$1: refused (exit $rc): $(sed -n 1p err.txt)"
		return
	fi
	[ -f setup.gen.go ] || { echo "$1: no output file"; exit 2; }
	if go build ./... >build.txt 2>&1; then
		echo "$1: compiles"
	else
		echo "$1: exit 0 but: $(grep -v '^#' build.txt | sed -n 1p)"
		bad="$bad $1"
	fi
}

# control
try control '// :typecast' 'F(u *User) *DTO'
[ -z "$bad" ] && grep -q '^func F(u \*User)' "$tmp/control/setup.gen.go" || { echo "control input failed"; exit 2; }

try dsttype '// :skip N' 'F(DTO *User) *DTO'
try converter '// :conv Upper Name' 'F(Upper *User) *DTO'
try builtin '// :typecast' 'F(int *User) *DTO'

if [ -n "$bad" ]; then
	echo "VIOLATED: C01 - exit 0 with output that does not compile, the parameter hides a name the body uses:$bad"
	exit 1
fi
echo "not violated"
exit 0
