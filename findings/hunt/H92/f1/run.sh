#!/bin/sh
# usage: run.sh <repository root>
# C03: a parameter named like a package that is only blank-imported (no name in scope at all)
# is refused since a9184d4, although the generated function compiles.
root=${1:?usage: run.sh <repository root>}
export GOFLAGS=-mod=mod GOPROXY=off GOSUMDB=off GOTOOLCHAIN=local; unset GOWORK
tmp=$(mktemp -d) || exit 2
trap 'rm -rf "$tmp"' EXIT
(cd "$root" && go build -o "$tmp/convergen" .) >"$tmp/build.log" 2>&1 || { cat "$tmp/build.log"; echo "cannot build the tool"; exit 2; }

mk() { # $1 = dir, $2 = parameter name
	mkdir -p "$1/model" || exit 2
	printf 'module play\ngo 1.19\n' > "$1/go.mod"
	printf 'package model\n\nfunc init() {}\n' > "$1/model/model.go"
	printf 'package play\n' > "$1/doc.go"
	cat > "$1/setup.go" <<EOT
//go:build convergen

package play

import _ "play/model"

type A struct{ Name string }
type B struct{ Name string }

type Convergen interface {
	F($2 *A) *B
}
EOT
}

# control: the same file with another parameter name must be accepted and compile
mk "$tmp/ctl" m
(cd "$tmp/ctl" && "$tmp/convergen" setup.go >out.txt 2>err.txt && go build ./... >>err.txt 2>&1) || { cat "$tmp/ctl/err.txt"; echo "control input failed"; exit 2; }

mk "$tmp/play" model
cd "$tmp/play" || exit 2
"$tmp/convergen" setup.go >out.txt 2>err.txt
rc=$?
if [ $rc -ne 0 ]; then
	sed -n 1,3p err.txt
	echo "VIOLATED: C03 - F(model *A) *B with 'import _ \"play/model\"' is rejected (exit $rc) although no package name is in scope that the parameter could hide"
	exit 1
fi
if ! go build ./... >build.txt 2>&1; then
	cat build.txt
	echo "VIOLATED: C01 - accepted but the output does not compile"
	exit 1
fi
echo "not violated"
exit 0
