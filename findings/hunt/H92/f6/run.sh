#!/bin/sh
# usage: run.sh <repository root>
# C01: a9184d4 refuses operand names that hide an imported package, but the function itself is a
# declaration too: a method called like an imported package hides that package in the whole output
# file (the import optimizer even deletes the import).
root=${1:?usage: run.sh <repository root>}
export GOFLAGS=-mod=mod GOPROXY=off GOSUMDB=off GOTOOLCHAIN=local; unset GOWORK
tmp=$(mktemp -d) || exit 2
trap 'rm -rf "$tmp"' EXIT
(cd "$root" && go build -o "$tmp/convergen" .) >"$tmp/build.log" 2>&1 || { cat "$tmp/build.log"; echo "cannot build the tool"; exit 2; }

mkdir -p "$tmp/play/model" && cd "$tmp/play" || exit 2
printf 'module play\ngo 1.19\n' > go.mod
printf 'package play\n' > doc.go
cat > model/model.go <<'EOT'
package model

type UserDTO struct {
	Name string
	Age  int
}
EOT
cat > setup.go <<'EOT'
//go:build convergen

package play

import "play/model"

type User struct {
	Name string
	Age  int
}

type Convergen interface {
	model(u *User) *model.UserDTO
}
EOT
go build ./... >pre.txt 2>&1 || { cat pre.txt; echo "the module does not build before generation"; exit 2; }
go vet -tags convergen ./... >pre.txt 2>&1 || { cat pre.txt; echo "the setup file is not valid Go"; exit 2; }
"$tmp/convergen" setup.go >out.txt 2>err.txt
rc=$?
if [ $rc -ne 0 ]; then
	sed -n 1,3p err.txt
	echo "not violated (refused with exit $rc)"
	exit 0
fi
[ -f setup.gen.go ] || { echo "no output file"; exit 2; }
if ! go build ./... >build.txt 2>&1; then
	grep -n '^import\|^func' setup.gen.go
	sed -n 1,5p build.txt
	echo "VIOLATED: C01 - exit 0, but the function model hides the imported package model: the output does not compile"
	exit 1
fi
echo "not violated"
exit 0
