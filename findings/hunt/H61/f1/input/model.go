package play

type S[T any] struct {
	V T
}

type D[T any] struct {
	V T
}
