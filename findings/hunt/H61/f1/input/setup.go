//go:build convergen

package play

type Convergen[T any] interface {
	F(*S[T]) *D[T]
}
