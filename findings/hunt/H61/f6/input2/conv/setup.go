//go:build convergen

package conv

import (
	// The referenced library should have been imported anyhow. (README, ":conv")
	_ "play/hex"
)

type Convergen interface {
	// :conv hex.EncodeToString Key
	F(*S) *D
}
