package conv

type S struct{ Key []byte }
type D struct{ Key string }
