package hex

// EncodeToString is the house encoding: a prefix and upper case digits.
func EncodeToString(b []byte) string {
	const digits = "0123456789ABCDEF"
	s := "0x"
	for _, c := range b {
		s += string(digits[c>>4]) + string(digits[c&15])
	}
	return s
}
