#!/bin/bash
# usage: run.sh <repository root>
# exit status: 1 = property violated, 0 = not violated, 2 = could not run
repo=${1:?usage: run.sh <repository root>}
repo=$(cd "$repo" 2>/dev/null && pwd) || { echo "cannot enter the repository root: $1"; exit 2; }
here=$(cd "$(dirname "$0")" && pwd)
export GOFLAGS=-mod=mod GOPROXY=off GOSUMDB=off GOTOOLCHAIN=local
unset GOWORK GOFILE
tmp=$(mktemp -d "${TMPDIR:-/tmp}/h61.XXXXXX") || exit 2
trap 'rm -rf "$tmp"' EXIT
( cd "$repo" && go build -buildvcs=false -o "$tmp/convergen" . ) >"$tmp/build.log" 2>&1 ||
	{ echo "could not build the tool:"; cat "$tmp/build.log"; exit 2; }
mkdir "$tmp/play" && cp -R "$here/input/." "$tmp/play/" || { echo "could not create the input"; exit 2; }
cd "$tmp/play" || exit 2
# The input (module play, go 1.19, standard library only) must build before anything is generated:
# the setup file is excluded by its build tag.
go build ./... >"$tmp/pre.log" 2>&1 || { echo "the input does not build on its own:"; cat "$tmp/pre.log"; exit 2; }

status=0

# --- case 1: two packages named "types", neither imported by the setup file ------------------------------
SETUP=conv/setup.go
GEN=conv/setup.gen.go
"$tmp/convergen" "$SETUP" >"$tmp/tool.log" 2>&1
rc=$?
if [ $rc -ne 0 ]; then
	echo "case 1: convergen refused the input (exit $rc): no violation"
	cat "$tmp/tool.log"
elif [ ! -f "$GEN" ]; then
	echo "case 1: convergen exited 0 but wrote no $GEN"; exit 2
elif go build ./... >"$tmp/post.log" 2>&1; then
	echo "case 1: convergen exited 0 and the package compiles with $GEN: no violation"
else
	echo "VIOLATION [C01] case 1: convergen exited 0 but the package does not compile with the emitted $GEN"
	echo "--- $GEN"
	cat "$GEN"
	echo "--- go build ./..."
	cat "$tmp/post.log"
	status=1
fi

# --- case 2: the README's blank import for a :conv function whose package name also exists in the standard library
mkdir "$tmp/play2" && cp -R "$here/input2/." "$tmp/play2/" || { echo "could not create the second input"; exit 2; }
cd "$tmp/play2" || exit 2
go build ./... >"$tmp/pre2.log" 2>&1 || { echo "the second input does not build on its own:"; cat "$tmp/pre2.log"; exit 2; }
"$tmp/convergen" "$SETUP" >"$tmp/tool2.log" 2>&1
rc=$?
if [ $rc -ne 0 ]; then
	echo "case 2: convergen refused the input (exit $rc): no violation"
	cat "$tmp/tool2.log"
	exit $status
fi
[ -f "$GEN" ] || { echo "case 2: convergen exited 0 but wrote no $GEN"; exit 2; }
mv cmd/show/main.go.txt cmd/show/main.go
if ! got=$(go run ./cmd/show 2>"$tmp/run2.log"); then
	echo "VIOLATION [C01] case 2: convergen exited 0 but the package does not compile with the emitted $GEN"
	cat "$GEN"; cat "$tmp/run2.log"
	exit 1
fi
want=0xAB01 # play/hex.EncodeToString([]byte{0xab, 0x01}), the function the setup file names and the tool checked
if [ "$got" = "$want" ]; then
	echo "case 2: F copies Key through play/hex.EncodeToString ($got): no violation"
else
	echo "VIOLATION case 2 (wrong value): dst.Key = $got, want $want: the emitted file calls another package's function"
	echo "--- $GEN"
	cat "$GEN"
	status=1
fi
exit $status
