//go:build convergen

package conv

import (
	m1 "play/v1/model"
	m2 "play/v2/model"
)

// :typecast
type Convergen interface {
	Upgrade(*m1.User) *m2.User
	Downgrade(*m2.User) *m1.User
}
