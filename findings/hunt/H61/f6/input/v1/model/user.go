package model

import "play/v1/types"

type User struct {
	Status types.Status
	Tags   []types.Status
}
