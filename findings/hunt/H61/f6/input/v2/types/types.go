package types

type Status int
