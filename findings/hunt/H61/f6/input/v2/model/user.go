package model

import "play/v2/types"

type User struct {
	Status types.Status
	Tags   []types.Status
}
