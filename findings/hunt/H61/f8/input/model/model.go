package model

type event struct{ N int }

type Opt[T any] struct {
	V  T
	Ok bool
}

type S struct {
	Points   []struct{ x, y int }
	Inbox    []chan event
	Recent   []Opt[event]
	Handlers []func(event)
}

type D struct {
	Points   []struct{ x, y int }
	Inbox    []chan event
	Recent   []Opt[event]
	Handlers []func(event)
}
