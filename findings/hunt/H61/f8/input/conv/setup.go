//go:build convergen

package conv

import "play/model"

type Convergen interface {
	F(*model.S) *model.D
}
