//go:build convergen

package conv

import "play/model"

type Convergen interface {
	ToDTO(model *model.User) *model.UserDTO
}
