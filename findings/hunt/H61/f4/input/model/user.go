package model

type User struct {
	ID   int
	Name string
}

type UserDTO struct {
	ID   int
	Name string
}
