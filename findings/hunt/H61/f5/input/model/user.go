package model

type User struct {
	ID   int
	Name string
}
