//go:build convergen

package api

type Convergen interface {
	ToView(*DomainUser) *UserView
}
