package api

import "play/model"

// DomainUser is what the rest of this package calls the model's user.
type DomainUser = model.User

type UserView struct {
	ID   int
	Name string
}
