//go:build convergen

package play

type Convergen interface {
	Common
	F(*S) *D
}
