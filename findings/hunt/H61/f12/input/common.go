//go:build convergen

package play

// Common is embedded by the converter interfaces of this package.
type Common interface {
	// Fill copies into an existing D and never copies the secret.
	// :style arg
	// :skip Secret
	Fill(*S) *D
}
