package play

type S struct {
	V      int
	Secret string
}

type D struct {
	V      int
	Secret string
}
