#!/bin/bash
# usage: run.sh <repository root>
# exit status: 1 = property violated, 0 = not violated, 2 = could not run
repo=${1:?usage: run.sh <repository root>}
repo=$(cd "$repo" 2>/dev/null && pwd) || { echo "cannot enter the repository root: $1"; exit 2; }
here=$(cd "$(dirname "$0")" && pwd)
export GOFLAGS=-mod=mod GOPROXY=off GOSUMDB=off GOTOOLCHAIN=local
unset GOWORK GOFILE
tmp=$(mktemp -d "${TMPDIR:-/tmp}/h61.XXXXXX") || exit 2
trap 'rm -rf "$tmp"' EXIT
( cd "$repo" && go build -buildvcs=false -o "$tmp/convergen" . ) >"$tmp/build.log" 2>&1 ||
	{ echo "could not build the tool:"; cat "$tmp/build.log"; exit 2; }
mkdir "$tmp/play" && cp -R "$here/input/." "$tmp/play/" || { echo "could not create the input"; exit 2; }
cd "$tmp/play" || exit 2
# The input (module play, go 1.19, standard library only) must build before anything is generated:
# the setup file is excluded by its build tag.
go build ./... >"$tmp/pre.log" 2>&1 || { echo "the input does not build on its own:"; cat "$tmp/pre.log"; exit 2; }

SETUP=setup.go
GEN=setup.gen.go
"$tmp/convergen" "$SETUP" >"$tmp/tool.log" 2>&1
rc=$?
if [ $rc -ne 0 ]; then
	echo "convergen refused the input (exit $rc): no violation"
	sed "s#$tmp/play/##g" "$tmp/tool.log"
	exit 0
fi
[ -f "$GEN" ] || { echo "convergen exited 0 but wrote no $GEN"; cat "$tmp/tool.log"; exit 2; }
go build ./... >"$tmp/post.log" 2>&1 || { echo "VIOLATION [C01]: the emitted file does not compile"; cat "$GEN" "$tmp/post.log"; exit 1; }
# Fill is annotated ":style arg": func Fill(dst *D, src *S). It is also annotated ":skip Secret".
cat >zz_check.go <<'EOT'
package play

var _ func(*D, *S) = Fill
EOT
bad=0
go build ./... >"$tmp/check.log" 2>&1 || bad=1
awk '/^func Fill\(/,/^}/' "$GEN" | grep -q 'Secret = ' && bad=1
if [ $bad -eq 0 ]; then
	echo "Fill has the arg-style signature and does not copy Secret: no violation"
	exit 0
fi
echo "VIOLATION [C08]: the notations of method Fill (:style arg, :skip Secret) were ignored without a word"
echo "--- $GEN"
cat "$GEN"
echo "--- go build with: var _ func(*D, *S) = Fill"
cat "$tmp/check.log"
echo "--- convergen said"
sed "s#$tmp/play/##g" "$tmp/tool.log"
exit 1
