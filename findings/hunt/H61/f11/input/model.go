package play

type S struct{ V int }
type D struct{ V int }
