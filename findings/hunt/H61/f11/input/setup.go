//go:build convergen

package play

type (
	// Options is used by the hooks below.
	Options struct {
		Strict bool
	}

	Convergen interface {
		F(*S) *D
	}
)

var DefaultOptions = Options{Strict: true}
