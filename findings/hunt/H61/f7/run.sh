#!/bin/bash
# usage: run.sh <repository root>
# exit status: 1 = property violated, 0 = not violated, 2 = could not run
repo=${1:?usage: run.sh <repository root>}
repo=$(cd "$repo" 2>/dev/null && pwd) || { echo "cannot enter the repository root: $1"; exit 2; }
here=$(cd "$(dirname "$0")" && pwd)
export GOFLAGS=-mod=mod GOPROXY=off GOSUMDB=off GOTOOLCHAIN=local
unset GOWORK GOFILE
tmp=$(mktemp -d "${TMPDIR:-/tmp}/h61.XXXXXX") || exit 2
trap 'rm -rf "$tmp"' EXIT
( cd "$repo" && go build -buildvcs=false -o "$tmp/convergen" . ) >"$tmp/build.log" 2>&1 ||
	{ echo "could not build the tool:"; cat "$tmp/build.log"; exit 2; }
mkdir "$tmp/play" && cp -R "$here/input/." "$tmp/play/" || { echo "could not create the input"; exit 2; }
cd "$tmp/play" || exit 2
# The input (module play, go 1.19, standard library only) must build before anything is generated:
# the setup file is excluded by its build tag.
go build ./... >"$tmp/pre.log" 2>&1 || { echo "the input does not build on its own:"; cat "$tmp/pre.log"; exit 2; }

SETUP=setup.go
GEN=setup.gen.go
"$tmp/convergen" "$SETUP" >"$tmp/tool.log" 2>&1
rc=$?
if [ $rc -ne 0 ]; then
	echo "convergen refused the input (exit $rc): no violation"
	cat "$tmp/tool.log"
	exit 0
fi
[ -f "$GEN" ] || { echo "convergen exited 0 but wrote no $GEN"; cat "$tmp/tool.log"; exit 2; }
# Go has no methods on instantiated types (nor on unnamed types): whatever was emitted for
# ":recv p" + "*Page[int]" is not the function the method describes.
echo "VIOLATION [C08]: convergen accepted :recv for the instantiated generic type *Page[int]"
echo "--- $GEN"
cat "$GEN"
echo "--- go build ./..."
if go build ./... 2>&1; then
	echo "(compiles: the method is declared for every Page[T], with a type parameter that happens to be named int)"
else
	echo "VIOLATION [C01]: and the emitted file does not compile"
fi
exit 1
