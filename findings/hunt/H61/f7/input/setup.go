//go:build convergen

package play

type Convergen interface {
	// :recv p
	ToRow(*Page[int]) *IntPageRow
}
