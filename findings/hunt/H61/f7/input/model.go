package play

type Page[T any] struct {
	Total int
	First T
}

type IntPageRow struct {
	Total int
	First int
}
