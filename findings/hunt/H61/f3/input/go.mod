module play

go 1.19
