//go:build convergen

package play

type Convergen interface {
	// The tenant is not needed (yet): blank parameter names are what Go offers for that.
	F(_ *S, _ string) *D
}
