//go:build convergen

package play

type Convergen interface {
	// :typecast
	FromWire(*Wire) *Record
}
