package play

type Digest [4]byte

type Wire struct {
	Sum []byte
}

type Record struct {
	Sum Digest
}
