//go:build convergen

package play

type Convergen interface {
	// :style arg
	// :recv e
	// :reverse
	FromRow(*Event) *Row
}
