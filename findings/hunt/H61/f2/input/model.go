package play

type Tag string

type Event struct {
	ID   int
	Tags []Tag
}

// Methods of Event use the receiver name e.
func (e *Event) Empty() bool { return e.ID == 0 }

type Row struct {
	ID   int
	Tags []Tag
}
