//go:build convergen

package play

type Convergen interface {
	// ToUser also says whether the row was complete.
	ToUser(*Row) (*User, bool)
	// :conv atoi ID
	Parse(*Row) (u *User, err error, warnings []string)
}
