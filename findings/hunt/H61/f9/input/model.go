package play

import "strconv"

type Row struct {
	ID   string
	Name string
}

type User struct {
	ID   int
	Name string
}

func atoi(s string) (int, error) { return strconv.Atoi(s) }
