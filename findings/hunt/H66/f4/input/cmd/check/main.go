package main

import (
	"fmt"
	"os"

	"play"
	"play/domain"
)

func main() {
	want := os.Args[1]
	dst := play.F(&domain.Src{A: 1})
	if dst.By != want {
		fmt.Printf("VIOLATION: the setup file names %s.Fill as the hook, the generated function called the Fill of %q\n", want, dst.By)
		os.Exit(1)
	}
	fmt.Printf("ok: the hook of %s ran\n", want)
}
