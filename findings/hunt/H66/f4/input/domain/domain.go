package domain

type Src struct{ A int }

type Dst struct {
	A  int
	By string // set by the post-process hook
}
