package hooks

import "play/domain"

// Fill of play/z/hooks.
func Fill(d *domain.Dst, s *domain.Src) { d.By = "play/z/hooks" }
