package hooks

import "play/domain"

// Fill of play/a/hooks.
func Fill(d *domain.Dst, s *domain.Src) { d.By = "play/a/hooks" }
