#!/bin/sh
# f4: a hook of a blank-imported package is emitted as <name>.<func> without an import; which package of that
# name the call ends up in is left to the import optimizer's search.
# usage: run.sh <repository root>; exit 1 = property violated, 0 = not violated, 2 = could not run
REPO=${1:?usage: run.sh <repository root>}
REPO=$(cd "$REPO" && pwd) || exit 2
HERE=$(cd "$(dirname "$0")" && pwd)
export GOFLAGS=-mod=mod GOPROXY=off GOSUMDB=off GOTOOLCHAIN=local
unset GOWORK
TMP=$(mktemp -d) || exit 2
trap 'rm -rf "$TMP"' EXIT
(cd "$REPO" && go build -o "$TMP/convergen" .) >"$TMP/build.log" 2>&1 || { cat "$TMP/build.log"; echo "cannot build the tool"; exit 2; }
violated=0
# The hook is taken once from play/z/hooks and once from play/a/hooks; the other package is merely present in the module.
for wanted in z a; do
	rm -rf "$TMP/in"
	cp -R "$HERE/input" "$TMP/in" || exit 2
	cd "$TMP/in" || exit 2
	sed "s/@WANTED@/$wanted/" setup.go.tmpl > setup.go && rm setup.go.tmpl
	"$TMP/convergen" setup.go >"$TMP/gen.out" 2>&1
	rc=$?
	if [ $rc -ne 0 ]; then
		echo "hook from play/$wanted/hooks: the tool refused the input (exit $rc):"; cat "$TMP/gen.out"
		continue
	fi
	if ! go build -o "$TMP/check" ./cmd/check >"$TMP/chk.build" 2>&1; then
		echo "VIOLATION: hook from play/$wanted/hooks: exit 0 and the generated code does not compile:"; cat "$TMP/chk.build"
		violated=1
		continue
	fi
	if ! "$TMP/check" "play/$wanted/hooks"; then
		violated=1
		sed -n '/^import/,/^)/p' setup.gen.go
	fi
done
exit $violated
