#!/bin/sh
# f8: under :reverse the hooks are checked against and called with the operands in their un-reversed roles.
# usage: run.sh <repository root>; exit 1 = property violated, 0 = not violated, 2 = could not run
REPO=${1:?usage: run.sh <repository root>}
REPO=$(cd "$REPO" && pwd) || exit 2
HERE=$(cd "$(dirname "$0")" && pwd)
export GOFLAGS=-mod=mod GOPROXY=off GOSUMDB=off GOTOOLCHAIN=local
unset GOWORK
TMP=$(mktemp -d) || exit 2
trap 'rm -rf "$TMP"' EXIT
(cd "$REPO" && go build -o "$TMP/convergen" .) >"$TMP/build.log" 2>&1 || { cat "$TMP/build.log"; echo "cannot build the tool"; exit 2; }
cp -R "$HERE/input" "$TMP/in" || exit 2
violated=0

# case a: hook(dst, src) in terms of what the generated function writes and reads
cd "$TMP/in/a" || exit 2
go build ./... >"$TMP/a.pre" 2>&1 || { cat "$TMP/a.pre"; echo "case a: the input does not compile"; exit 2; }
"$TMP/convergen" setup.go >"$TMP/a.out" 2>&1
rc=$?
if [ $rc -ne 0 ]; then
	echo "VIOLATION: case a: a hook taking (destination *User, source *storage.User) is rejected (exit $rc):"
	cat "$TMP/a.out"
	violated=1
else
	echo "case a: accepted"; sed -n '/^func (/,/^}/p' setup.gen.go
	go build ./... || violated=1
fi

# case b: the order that is accepted hands the hook (source, destination)
cd "$TMP/in/b" || exit 2
"$TMP/convergen" setup.go >"$TMP/b.out" 2>&1
rc=$?
if [ $rc -ne 0 ]; then
	echo "case b: rejected (exit $rc):"; cat "$TMP/b.out"
elif go build -o "$TMP/check" ./cmd/check >"$TMP/b.build" 2>&1; then
	sed -n '/^func (/,/^}/p' setup.gen.go
	"$TMP/check"
	[ $? -eq 1 ] && violated=1
else
	echo "case b: the generated code does not compile"; cat "$TMP/b.build"; violated=1
fi
exit $violated
