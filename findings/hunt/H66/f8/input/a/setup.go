//go:build convergen

package play

import "play/storage"

type Convergen interface {
	// The README's :reverse example, plus a hook.
	// :style arg
	// :recv u
	// :reverse
	// :skip Loaded
	// :postprocess loaded
	FromStorage(*User) *storage.User
}
