package play

import "play/storage"

type User struct {
	ID     int
	Name   string
	Loaded bool
}

// loaded is written as the README shows hooks: destination first, source second.
// FromStorage fills its receiver, a *User, from a *storage.User.
func loaded(dst *User, src *storage.User) { dst.Loaded = true }
