package storage

type User struct {
	ID   int
	Name string
}
