//go:build convergen

package play

import "play/storage"

type Convergen interface {
	// :style arg
	// :recv u
	// :reverse
	// :skip Loaded
	// :preprocess record
	FromStorage(*User) *storage.User
}
