package play

import "play/storage"

type User struct {
	ID     int
	Name   string
	Loaded bool
}

// First and Second record what the hook was given.
var First, Second interface{}

// record has the only parameter order the tool accepts for this method.
func record(first *storage.User, second *User) { First, Second = first, second }
