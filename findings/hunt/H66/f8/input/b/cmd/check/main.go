package main

import (
	"fmt"
	"os"

	"play"
	"play/storage"
)

func main() {
	written := &play.User{}
	read := &storage.User{ID: 7, Name: "n"}
	written.FromStorage(read)
	if written.ID != 7 || written.Name != "n" {
		fmt.Println("unexpected: the receiver was not filled")
		os.Exit(2)
	}
	// The receiver is what the function assigns to (its destination), the parameter is what it reads (its source).
	if play.First != interface{}(written) || play.Second != interface{}(read) {
		fmt.Printf("VIOLATION: case b: the hook's first argument is the object the function reads (%T), its second the object the function writes (%T)\n",
			play.First, play.Second)
		os.Exit(1)
	}
	fmt.Println("case b ok: hook(destination, source)")
}
