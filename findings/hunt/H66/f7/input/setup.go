//go:build convergen

package play

type Convergen interface {
	// The copy itself has no use for the additional arguments, so the interface leaves them blank;
	// they are there for the hook.
	// :skip Tenant
	// :skip Trace
	// :postprocess stamp
	F(src *Src, _ string, _ int) (dst *Dst)
}
