package play

type Src struct{ A int }

type Dst struct {
	A      int
	Tenant string
	Trace  int
}

// stamp is the post-process hook: it takes the method's two additional arguments.
func stamp(d *Dst, s *Src, tenant string, trace int) {
	d.Tenant = tenant
	d.Trace = trace
}
