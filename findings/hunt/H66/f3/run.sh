#!/bin/sh
# f3: hook parameters are compared with the method's operands after stripping one pointer from both sides.
# usage: run.sh <repository root>; exit 1 = property violated, 0 = not violated, 2 = could not run
REPO=${1:?usage: run.sh <repository root>}
REPO=$(cd "$REPO" && pwd) || exit 2
HERE=$(cd "$(dirname "$0")" && pwd)
export GOFLAGS=-mod=mod GOPROXY=off GOSUMDB=off GOTOOLCHAIN=local
unset GOWORK
TMP=$(mktemp -d) || exit 2
trap 'rm -rf "$TMP"' EXIT
(cd "$REPO" && go build -o "$TMP/convergen" .) >"$TMP/build.log" 2>&1 || { cat "$TMP/build.log"; echo "cannot build the tool"; exit 2; }
cp -R "$HERE/input" "$TMP/in" || exit 2
violated=0

# case a: a hook that takes an interface which only the pointer implements fits a *Dst destination, and is rejected
cd "$TMP/in/a" || exit 2
go vet . >"$TMP/a.pre" 2>&1 || { cat "$TMP/a.pre"; echo "case a: the input (with the hand-written equivalent) does not compile"; exit 2; }
"$TMP/convergen" setup.go >"$TMP/a.out" 2>&1
rc=$?
if [ $rc -ne 0 ]; then
	echo "VIOLATION: case a: a well-formed hook is rejected (exit $rc), although validate(dst, src) compiles (see handWritten in types.go):"
	cat "$TMP/a.out"
	violated=1
else
	echo "case a: accepted"; sed -n '/^func F/,/^}/p' setup.gen.go
	go build ./... || violated=1
fi

# case b: hooks that cannot take the destination are accepted and the output does not compile
cd "$TMP/in/b" || exit 2
go vet . >"$TMP/b.pre" 2>&1 || { cat "$TMP/b.pre"; echo "case b: the input does not compile"; exit 2; }
"$TMP/convergen" setup.go >"$TMP/b.out" 2>&1
rc=$?
if [ $rc -ne 0 ]; then
	echo "case b: rejected, as it must be (exit $rc):"; cat "$TMP/b.out"
elif go build ./... >"$TMP/b.build" 2>&1; then
	echo "case b: accepted and compiles"
else
	echo "VIOLATION: case b: ill-fitting hooks are accepted (exit 0) and the generated code does not compile:"
	cat "$TMP/b.build"
	violated=1
fi

# case c: a hook whose parameters are interfaces receives copies of the operands, not the operands
cd "$TMP/in/c" || exit 2
"$TMP/convergen" setup.go >"$TMP/c.out" 2>&1
rc=$?
if [ $rc -ne 0 ]; then
	echo "case c: rejected (exit $rc):"; cat "$TMP/c.out"
elif go build -o "$TMP/check" ./cmd/check >"$TMP/c.build" 2>&1; then
	sed -n '/^func F/,/^}/p' setup.gen.go
	"$TMP/check" || violated=1
else
	echo "case c: the generated code does not compile"; cat "$TMP/c.build"; violated=1
fi
exit $violated
