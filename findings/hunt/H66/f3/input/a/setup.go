//go:build convergen

package play

type Convergen interface {
	// :postprocess validate
	F(src *Src) (dst *Dst, err error)
}
