package play

import "errors"

type Src struct{ A int }

type Dst struct{ A int }

// Validate has a pointer receiver: *Dst implements Validator, Dst does not.
func (d *Dst) Validate() error {
	if d.A < 0 {
		return errors.New("negative")
	}
	return nil
}

type Validator interface{ Validate() error }

// validate is the hook: it fits F's operands (dst is a *Dst, src is a *Src).
func validate(d Validator, s *Src) error { return d.Validate() }

// handWritten is what the tool is expected to emit; it compiles.
func handWritten(src *Src) (dst *Dst, err error) {
	dst = &Dst{}
	dst.A = src.A
	err = validate(dst, src)
	return
}
