//go:build convergen

package play

type Convergen interface {
	// :preprocess preUnnamed
	F(src *Src) (dst *Dst)
	// :preprocess preIface
	G(src *Src) (dst *Dst)
}
