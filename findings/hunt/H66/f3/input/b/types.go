package play

type Src struct{ A int }

type Dst struct{ A int }

// Neither hook can take F's destination, a *Dst.
func preUnnamed(d *struct{ A int }, s *Src) {}

func preIface(d *interface{}, s *Src) {}
