package main

import (
	"fmt"
	"os"

	"play"
)

func main() {
	dst := play.F(&play.Src{A: 1})
	if p, ok := play.Seen.(*play.Dst); !ok || p != dst {
		fmt.Printf("VIOLATION: case c: the hook did not receive the function's destination (%p) but a %T\n", dst, play.Seen)
		os.Exit(1)
	}
	fmt.Println("case c ok: the hook received the destination itself")
}
