package play

type Src struct{ A int }

type Dst struct {
	A       int
	Stamped bool
}

// Seen records what the hook was given.
var Seen interface{}

// stamp takes anything; F's destination is a *Dst, which is what it should be given.
func stamp(d interface{}, s interface{}) {
	Seen = d
	if p, ok := d.(*Dst); ok {
		p.Stamped = true
	}
}
