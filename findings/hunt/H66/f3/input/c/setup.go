//go:build convergen

package play

type Convergen interface {
	// :postprocess stamp
	F(src *Src) (dst *Dst)
}
