#!/bin/sh
# f1: the element loop of a slice copy declares the variables i and e, which capture a destination named i or e.
# usage: run.sh <repository root>; exit 1 = property violated, 0 = not violated, 2 = could not run
REPO=${1:?usage: run.sh <repository root>}
REPO=$(cd "$REPO" && pwd) || exit 2
HERE=$(cd "$(dirname "$0")" && pwd)
export GOFLAGS=-mod=mod GOPROXY=off GOSUMDB=off GOTOOLCHAIN=local
unset GOWORK
TMP=$(mktemp -d) || exit 2
trap 'rm -rf "$TMP"' EXIT
(cd "$REPO" && go build -o "$TMP/convergen" .) >"$TMP/build.log" 2>&1 || { cat "$TMP/build.log"; echo "cannot build the tool"; exit 2; }
cp -R "$HERE/input" "$TMP/in" || exit 2
violated=0

# case a: recursive type, destination named e: the output compiles and copies nothing, writing into the source instead
cd "$TMP/in/a" || exit 2
"$TMP/convergen" setup.go >"$TMP/a.out" 2>&1
rc=$?
if [ $rc -ne 0 ]; then
	echo "case a: the tool refused the input (exit $rc):"; cat "$TMP/a.out"
else
	echo "case a: the tool exited 0; generated function:"
	sed -n '/^func Clone/,/^}/p' setup.gen.go
	if go build -o "$TMP/check" ./cmd/check >"$TMP/a.build" 2>&1; then
		"$TMP/check"
		[ $? -ne 0 ] && violated=1
	else
		echo "VIOLATION: case a: the generated code does not compile:"; cat "$TMP/a.build"
		violated=1
	fi
fi

# case b: destination named i: the output does not compile
cd "$TMP/in/b" || exit 2
"$TMP/convergen" setup.go >"$TMP/b.out" 2>&1
rc=$?
if [ $rc -ne 0 ]; then
	echo "case b: the tool refused the input (exit $rc):"; cat "$TMP/b.out"
else
	if go build ./... >"$TMP/b.build" 2>&1; then
		echo "case b: the generated code compiles"
	else
		echo "VIOLATION: case b: the tool exited 0 and the generated code does not compile:"; cat "$TMP/b.build"
		sed -n '/^func Conv/,/^}/p' setup.gen.go
		violated=1
	fi
fi
exit $violated
