//go:build convergen

package play

// Node is a recursive type: every node owns a slice of child nodes.
type Node struct {
	Name  string
	Items []*Node
}

type Convergen interface {
	// The destination is called e (for "entity").
	Clone(src *Node) (e *Node)
}
