package main

import (
	"fmt"
	"os"

	"play"
)

func leafs() []*play.Node { return []*play.Node{{Name: "x"}, {Name: "y"}} }

func main() {
	c0 := &play.Node{Name: "c0", Items: leafs()}
	c1 := &play.Node{Name: "c1", Items: leafs()}
	src := &play.Node{Name: "root", Items: []*play.Node{c0, c1}}

	bad := false
	func() {
		defer func() {
			if r := recover(); r != nil {
				fmt.Println("VIOLATION: Clone panicked:", r)
				bad = true
			}
		}()
		dst := play.Clone(src)
		if len(dst.Items) != len(src.Items) {
			fmt.Printf("VIOLATION: len(dst.Items) = %d, want %d\n", len(dst.Items), len(src.Items))
			bad = true
			return
		}
		for i := range src.Items {
			if dst.Items[i] != src.Items[i] {
				fmt.Printf("VIOLATION: dst.Items[%d] = %v, want the source element %q\n", i, dst.Items[i], src.Items[i].Name)
				bad = true
			}
		}
	}()
	// The source must not have been written to.
	if c0.Items[0].Name != "x" || c1.Items[1].Name != "y" {
		fmt.Printf("VIOLATION: the source was modified: c0.Items[0] = %q (want x), c1.Items[1] = %q (want y)\n",
			c0.Items[0].Name, c1.Items[1].Name)
		bad = true
	}
	if bad {
		os.Exit(1)
	}
	fmt.Println("ok: Clone copied the slice")
}
