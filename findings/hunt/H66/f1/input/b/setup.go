//go:build convergen

package play

type Item struct{ N int }

type Src struct {
	Items []Item
}

type Dst struct {
	Items []Item
}

type Convergen interface {
	// The destination is called i.
	Conv(src *Src) (i *Dst)
}
