package domain

import "play/model"

type User struct {
	Name string
	Tags []model.Tag
}
