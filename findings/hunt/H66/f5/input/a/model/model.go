package model

type Tag struct{ Label string }

type User struct {
	Name string
	Tags []Tag
}
