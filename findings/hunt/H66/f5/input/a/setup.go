//go:build convergen

package play

import (
	"play/domain"
	"play/model"
)

type Convergen interface {
	// The source is named after what it is, which is also the name of its package.
	ToDomain(model *model.User) (dst *domain.User)
}
