package domain

type User struct {
	Name string
}
