//go:build convergen

package play

import (
	"play/domain"
	"play/model"
)

type Convergen interface {
	// :style arg
	// :skip Loaded
	// :postprocess model.AfterLoad
	FillModel(src *domain.User) (model *model.User)
}
