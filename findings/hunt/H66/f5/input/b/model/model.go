package model

import "play/domain"

type User struct {
	Name   string
	Loaded bool
}

// AfterLoad is the post-process hook.
func AfterLoad(m *User, d *domain.User) { m.Loaded = true }
