#!/bin/sh
# f5: a parameter or result named like a package hides the qualifier that the emitted body needs.
# usage: run.sh <repository root>; exit 1 = property violated, 0 = not violated, 2 = could not run
REPO=${1:?usage: run.sh <repository root>}
REPO=$(cd "$REPO" && pwd) || exit 2
HERE=$(cd "$(dirname "$0")" && pwd)
export GOFLAGS=-mod=mod GOPROXY=off GOSUMDB=off GOTOOLCHAIN=local
unset GOWORK
TMP=$(mktemp -d) || exit 2
trap 'rm -rf "$TMP"' EXIT
(cd "$REPO" && go build -o "$TMP/convergen" .) >"$TMP/build.log" 2>&1 || { cat "$TMP/build.log"; echo "cannot build the tool"; exit 2; }
cp -R "$HERE/input" "$TMP/in" || exit 2
violated=0
for c in a b; do
	cd "$TMP/in/$c" || exit 2
	go build ./... >"$TMP/pre.build" 2>&1 || { cat "$TMP/pre.build"; echo "case $c: the input packages do not compile"; exit 2; }
	"$TMP/convergen" setup.go >"$TMP/gen.out" 2>&1
	rc=$?
	if [ $rc -ne 0 ]; then
		echo "case $c: the tool refused the input (exit $rc):"; cat "$TMP/gen.out"
		continue
	fi
	if go build ./... >"$TMP/post.build" 2>&1; then
		echo "case $c: the generated code compiles"
	else
		if [ $c = a ]; then p="A (slice copy)"; else p="B (hook call)"; fi
		echo "VIOLATION: case $c, property $p: the tool exited 0 and the generated code does not compile:"
		cat "$TMP/post.build"
		sed -n '/^func /,/^}/p' setup.gen.go
		violated=1
	fi
done
exit $violated
