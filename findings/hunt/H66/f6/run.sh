#!/bin/sh
# f6: the "can this element type be written here?" test does not look into func, chan, struct types and type arguments.
# usage: run.sh <repository root>; exit 1 = property violated, 0 = not violated, 2 = could not run
REPO=${1:?usage: run.sh <repository root>}
REPO=$(cd "$REPO" && pwd) || exit 2
HERE=$(cd "$(dirname "$0")" && pwd)
export GOFLAGS=-mod=mod GOPROXY=off GOSUMDB=off GOTOOLCHAIN=local
unset GOWORK
TMP=$(mktemp -d) || exit 2
trap 'rm -rf "$TMP"' EXIT
(cd "$REPO" && go build -o "$TMP/convergen" .) >"$TMP/build.log" 2>&1 || { cat "$TMP/build.log"; echo "cannot build the tool"; exit 2; }
cp -R "$HERE/input" "$TMP/in" || exit 2
cd "$TMP/in" || exit 2
go build ./... >"$TMP/pre.build" 2>&1 || { cat "$TMP/pre.build"; echo "the input packages do not compile"; exit 2; }
"$TMP/convergen" setup.go >"$TMP/gen.out" 2>&1
rc=$?
if [ $rc -ne 0 ]; then
	echo "the tool refused the input (exit $rc):"; cat "$TMP/gen.out"
	exit 0
fi
echo "tool output (exit 0):"; cat "$TMP/gen.out"
if go build ./... >"$TMP/post.build" 2>&1; then
	echo "ok: the generated code compiles"
	exit 0
fi
echo "VIOLATION: the tool exited 0 and the generated code does not compile:"
cat "$TMP/post.build"
grep -n 'make(' setup.gen.go
exit 1
