//go:build convergen

package play

import "play/engine"

type Convergen interface {
	Clone(src *engine.Config) (dst *engine.Config)
}
