package engine

// state and event are unexported: another package cannot write their names.
type state struct{ N int }

type event struct{ Kind string }

type Queue[T any] struct{ Items []T }

type Config struct {
	Name     string
	Plain    []event               // the tool knows it cannot spell this one
	Handlers []func(*state) error  // callbacks over an unexported type
	Signals  []chan event          // channels of an unexported type
	Queues   []Queue[event]        // generic type instantiated with an unexported type
	Records  []struct{ E event }   // unnamed struct with a member of an unexported type
	Index    []map[string][]*state // handled: maps, slices and pointers are looked into
}
