//go:build convergen

package play

import "play/api/model"

type Convergen interface {
	ClonePost(src *model.Post) (dst *model.Post)
}
