package model

type Tag struct{ ID int }
