package model

import smodel "play/storage/model"

// Tag is the API's own tag type.
type Tag struct{ Label string }

type Post struct {
	Title string
	Tags  []smodel.Tag // a type of play/storage/model, which is also called "model"
}
