//go:build convergen

package f15

import (
	"play/a/x"
	_ "play/b/x"
	_ "play/c/x"
)

type Src struct{ A string }
type Dst struct{ A string }

type Convergen interface {
	// M converts.
	// :conv _.F A
	M(*Src) *Dst
}

var _ = x.G
