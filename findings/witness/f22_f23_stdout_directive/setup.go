//go:build convergen

package f22

// Src is the source. To regenerate see //go:generate in gen.go (this line must survive).
type Src struct{ ID int }

// Dst is the destination.
type Dst struct{ ID int }

type Convergen interface {
	// M copies.
	// :tag json
	M(*Src) *Dst
}
