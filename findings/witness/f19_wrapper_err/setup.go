//go:build convergen

package f19

type MyString string

type Src struct {
	s string
}

func (s *Src) S() (string, error) { return s.s, nil }

type Dst struct {
	S MyString
}

type Convergen interface {
	// M converts.
	// :typecast
	// :map S() S
	M(*Src) (*Dst, error)
}
