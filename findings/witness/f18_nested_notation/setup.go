//go:build convergen

package f18

type In struct{ A, B string }
type Src struct {
	In In
	X  string
}
type Dst struct {
	In In
	X  string
}

func up(s string) string { return s }

type Convergen interface {
	// M1 skip nested.
	// :skip In.A
	M1(*Src) *Dst
	// M2 conv nested.
	// :conv up X In.A
	M2(*Src) *Dst
	// M3 skip beats conv
	// :skip X
	// :conv up X
	M3(*Src) *Dst
	// M4 literal nested
	// :literal In.B "lit"
	// :map X In.A
	M4(*Src) *Dst
}
