//go:build convergen

package f09

type Src struct {
	name string
	ID   int
}

func (s *Src) Name() string { return s.name }

type Dst struct {
	Name string
	ID   int
}

func pre(d Dst, s *Src)   {}
func post(d *Dst, s Src) error { return nil }

type Convergen interface {
	// M1 none+getter
	// :match none
	// :getter
	M1(*Src) *Dst
	// M2 arg style by-value dst with hooks
	// :style arg
	// :preprocess pre
	// :postprocess post
	M2(*Src) (Dst, error)
	// M3 arg style + recv + args
	// :style arg
	// :recv s
	M3(*Src, int, string) (*Dst, error)
	// M4 reverse
	// :style arg
	// :reverse
	M4(Src) *Dst
	// M5 return style value dst with hooks
	// :preprocess pre
	// :postprocess post
	M5(Src) (Dst, error)
}
