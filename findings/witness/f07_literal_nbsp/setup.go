//go:build convergen

package f07

type Src struct{ A string }
type Dst struct{ A string }

type Convergen interface {
	// M converts.
	// :literal A "x"
	M(*Src) *Dst
}
