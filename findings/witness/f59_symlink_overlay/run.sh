#!/bin/sh
# usage: run.sh <repository root>   — exit 1: C12 violated (a damaged previous output changes the run when the output path is spelled
# through a symbolic link to the package directory); exit 0: not violated.
set -u
export GOFLAGS=-mod=mod GOPROXY=off GOSUMDB=off GOTOOLCHAIN=local; unset GOWORK
repo=$(cd "${1:?usage: run.sh <repository root>}" && pwd)
T=$(mktemp -d); trap 'rm -rf "$T"' EXIT
(cd "$repo" && go build -o "$T/cv" .) || exit 2
mkdir "$T/play" && cd "$T/play" || exit 2
printf 'module play\ngo 1.19\n' > go.mod
cat > setup.go <<'GO'
//go:build convergen

package play

type A struct{ X int }
type B struct{ X int }

type Convergen interface {
	AtoB(*A) *B
}
GO
ln -s . alias
"$T/cv" -out alias/setup.gen.go setup.go || { echo "first run failed"; exit 2; }
cp setup.gen.go "$T/expected"
printf 'package pla' > setup.gen.go   # truncated inside the package name
"$T/cv" -out alias/setup.gen.go setup.go; rc=$?
if [ $rc -ne 0 ] || ! cmp -s setup.gen.go "$T/expected"; then
	echo "VIOLATED: with a damaged previous output the run exits $rc / writes other bytes than on an empty path"
	exit 1
fi
echo "not violated"
