//go:build convergen

package play

type Src struct{ A int }
type Dst struct{ A int }

//go:generate convergen
type Convergen interface {
	Copy(*Src) *Dst
}
