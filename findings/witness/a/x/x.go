package x

func G() {}
