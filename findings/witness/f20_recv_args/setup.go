//go:build convergen

package f20

type Src struct{ ID int }
type Dst struct{ ID int }

type Convergen interface {
	// :recv s
	ToDst(*Src, int) *Dst
}
