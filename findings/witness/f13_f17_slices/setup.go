//go:build convergen

package f13

type Strs []string
type Src struct {
	A Strs
	B []string
	C []*int
	D [][]int
	E []string
}
type Dst struct {
	A Strs
	B []interface{}
	C []*int
	D [][]int
	E Strs
}

type Convergen interface {
	// M1 slices
	M1(*Src) *Dst
	// M2 slices typecast
	// :typecast
	M2(*Src) *Dst
}
