//go:build convergen

package f01

type Src struct {
	name string
	ID   int
}

func (s *Src) Name() string { return s.name }

type Dst struct {
	Name string
	ID   int
}

// :getter
type Convergen interface {
	// ToDst converts.
	ToDst(*Src) *Dst
	// ToDst2 converts.
	// :getter
	ToDst2(*Src) *Dst
}
