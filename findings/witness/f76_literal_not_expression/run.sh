#!/bin/sh
# usage: run.sh <repository root> — exit 1: C14 violated (a :literal text that is no Go expression is reported with a position in the
# output file, which is never written, instead of the position of the notation); exit 0: not violated.
set -u
export GOFLAGS=-mod=mod GOPROXY=off GOSUMDB=off GOTOOLCHAIN=local; unset GOWORK
repo=$(cd "${1:?usage: run.sh <repository root>}" && pwd)
T=$(mktemp -d); trap 'rm -rf "$T"' EXIT
(cd "$repo" && go build -o "$T/cv" .) || exit 2
mkdir "$T/play" && cd "$T/play" || exit 2
printf 'module play\ngo 1.19\n' > go.mod
cat > setup.go <<'GO'
//go:build convergen

package play

type S struct{ Name string }
type D struct{ Name string }

type Convergen interface {
	// :literal Name )(
	F(*S) *D
}
GO
"$T/cv" -dry setup.go > "$T/out" 2> "$T/err"; rc=$?
if [ $rc -eq 0 ]; then echo "VIOLATED: accepted"; exit 1; fi
if head -1 "$T/err" | grep -q "setup.go:9:2:"; then echo "not violated (exit $rc, positioned at the notation)"; exit 0; fi
echo "VIOLATED: exit $rc but the message does not start with the position of the notation:"; head -3 "$T/err"
exit 1
