//go:build convergen

package f05

type Src struct {
	Err  error
	Name string
}
type Dst struct {
	Err  string
	Name string
}

type Convergen interface {
	// M converts.
	M(*Src) *Dst
	// N converts.
	N(*Dst) *Src
}
