//go:build convergen

package f06b

type Src struct {
	UserID string
	Name   string
}
type Dst struct {
	UserID string
	Name   string
}

type Convergen interface {
	// O converts.
	// :skip /\pL+ID/
	// :case:off
	O(*Src) *Dst
}
