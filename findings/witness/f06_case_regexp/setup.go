//go:build convergen

package f06

type Src struct {
	UserID string
	ID     string
	Name   string
}
type Dst struct {
	UserID string
	ID     string
	Name   string
}

type Convergen interface {
	// M converts.
	// :case:off
	// :skip /^\S+ID$/
	M(*Src) *Dst
	// N converts.
	// :skip /^\S+ID$/
	N(*Src) *Dst
}
