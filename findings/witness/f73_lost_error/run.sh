#!/bin/sh
# usage: run.sh <repository root> — exit 1: C14/C05 violated (an error reported for one destination field is lost when another field
# follows: the tool prints the diagnostic, exits 0 and the field disappears from the output without a comment); exit 0: not violated.
set -u
export GOFLAGS=-mod=mod GOPROXY=off GOSUMDB=off GOTOOLCHAIN=local; unset GOWORK
repo=$(cd "${1:?usage: run.sh <repository root>}" && pwd)
T=$(mktemp -d); trap 'rm -rf "$T"' EXIT
(cd "$repo" && go build -o "$T/cv" .) || exit 2
mkdir "$T/play" && cd "$T/play" || exit 2
printf 'module play\ngo 1.19\n' > go.mod
cat > setup.go <<'GO'
//go:build convergen

package play

type In struct{ X, Y int }
type S struct {
	P *In
	Q int
}
type D struct {
	P *In
	Q int
}

type Convergen interface {
	// :skip P.X
	F(*S) *D
}
GO
"$T/cv" -dry -print setup.go > "$T/out" 2> "$T/err"; rc=$?
if [ $rc -eq 0 ] && grep -q "cannot be honoured" "$T/err" && ! grep -q "dst.P" "$T/out"; then
	echo "VIOLATED: the diagnostic was printed, the run exited 0 and dst.P is not accounted for in the output"
	exit 1
fi
echo "not violated (exit $rc)"
