//go:generate convergen
package play

type Src struct{ A int }
type Dst struct{ A int }

// Convergen converts.
type Convergen interface {
	// Copy copies.
	Copy(*Src) *Dst
}
