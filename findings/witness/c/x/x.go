package x

func H() {}
