//go:build convergen

package play

type MyErr interface{ Error() string }

type Src struct{ E *MyErr }
type Dst struct{ E *error }

//go:generate convergen
type Convergen interface {
	// :typecast
	Copy(*Src) *Dst
}
