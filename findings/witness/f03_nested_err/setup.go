//go:build convergen

package f03

import "strconv"

type SrcIn struct{ A, B string }
type DstIn struct{ A, B int }
type Src struct {
	In SrcIn
	Z  string
}
type Dst struct {
	In DstIn
	Z  int
}

type Convergen interface {
	// M converts.
	// :conv strconv.Atoi In.A In.A
	// :conv strconv.Atoi In.B In.B
	// :conv strconv.Atoi Z Z
	M(*Src) (*Dst, error)
}

var _ = strconv.Itoa
