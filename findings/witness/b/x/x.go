package x

func F(s string) string { return s }
