//go:build convergen

package f04

type Src struct {
	A string
}
type Dst struct {
	A string
}

type Convergen interface {
	// M converts.
	// :preprocess pre
	M(*Src) *Dst
}

func pre(d *Dst) {}
