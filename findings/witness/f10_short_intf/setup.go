//go:build convergen

package f10

type Src struct {
	ID int
}

type Dst struct {
	ID int
}

type Convergen interface {
	ToDst(*Src) *Dst
}

// trailing decl
var X = 1
