//go:build convergen

package f12

import "strconv"

type Src struct {
	A string
	B []map[string]Src
	C *int
	s string
}

func (s *Src) S() (string, error) { return s.s, nil }

type MyInt int

type Dst struct {
	A int
	B []map[string]Src
	C *MyInt
	S string
}

type Convergen interface {
	// M converts.
	// :conv strconv.Atoi A
	// :typecast
	// :map S() S
	M(*Src) *Dst
}

var _ = strconv.Itoa
