//go:build convergen

package f21

type MyInt int

type Src struct {
	A *int
	B *MyInt
	C MyInt
}

type Dst struct {
	A *MyInt
	B *int
	C int
}

type Convergen interface {
	// :typecast
	M(*Src) *Dst
}
