#!/usr/bin/env python3
"""Regenerates /verif/MANIFEST.json from the claim table below (kept next to the rules so the two stay in step)."""
import json, os, sys
HERE = os.path.dirname(os.path.dirname(os.path.abspath(__file__)))

NOTE = ("Trusted base: go/packages, go/types, go/ssa of x/tools v0.29.0; the rule tables in checker/internal/rules. "
        "Assumes /repo type-checks and uses neither reflect nor unsafe (asserted on every run). Decides the named structural "
        "clauses for all inputs; run-time values of generated code are out of reach (see DESIGN.md, 'Not decided').")

# property -> (claim text, design ref, technique) ; absent => not_applicable with reason
CLAIMS = {
 "C04": ("Static rules (reaching-condition gating on SSA) decide for all inputs that no String() wrapper, type conversion, converting slice loop, "
         "getter candidate or name-based candidate can be created without its opt-in flag and the go/types judgement that justifies it, that getters "
         "win over fields, and that the name/getter/stringer predicates have the documented shape. Necessary conditions of the property; the choice "
         "among several candidates is not decided.", "DESIGN.md §3 C04", "reaching-condition (gating) analysis over go/ssa + predicate-body shape rules"),
}
PENDING = {}
ALL = ["C%02d" % i for i in range(1, 20)]

def main():
    checks = []
    na = []
    for pid in ALL:
        if pid in CLAIMS:
            text, ref, tech = CLAIMS[pid]
            checks.append({
                "property_id": pid,
                "quick_cmd": "./check %s quick" % pid,
                "thorough_cmd": "./check %s thorough" % pid,
                "evidence_file": "evidence/%s.json" % pid,
                "replay_cmd_template": "./check --replay {path}",
                "engine": "cvcheck",
                "level_claimed": {"category": "other", "text": text, "design_ref": ref},
                "level_note": NOTE,
                "technique": tech,
            })
        else:
            na.append({"property_id": pid, "reason": PENDING.get(pid, "static check under construction in this round (see DESIGN.md §2.8 build order); not claimed until its rules exist and pass their self-tests")})
    m = {
        "version": 1,
        "setup_cmd": "cd checker && GOFLAGS=-mod=mod GOPROXY=off GOSUMDB=off GOTOOLCHAIN=local go build -o ../bin/cvcheck ./cmd/cvcheck",
        "hooks": {"guard": "verif", "enable": "none needed: the checks analyse the ordinary build of /repo (no instrumentation)",
                  "baseline_off_cmd": "cd /repo && go test -vet=off -count=1 ./...", "source_commits": [], "add_only": True},
        "engines": [{"name": "cvcheck", "path": "checker/", "serves_properties": sorted(CLAIMS),
                     "kind_free_text": "repository-specific static analyser: go/packages + go/types + go/ssa; reaching-condition gating, value-flow, emitted-code grammar extraction judged by go/parser+go/types, effect inventory"}],
        "checks": checks,
        "not_applicable": na,
        "notes": "All checks are static: they load /repo's current working tree with go/packages and never execute repository code. Known genuine defects are listed in known_findings.json.",
    }
    with open(os.path.join(HERE, "MANIFEST.json"), "w") as f:
        json.dump(m, f, indent=1)
        f.write("\n")

if __name__ == "__main__":
    main()
