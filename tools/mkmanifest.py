#!/usr/bin/env python3
"""Regenerates /verif/MANIFEST.json from the claim table below (kept next to the rules so the two stay in step)."""
import json, os, sys
HERE = os.path.dirname(os.path.dirname(os.path.abspath(__file__)))

NOTE = ("Trusted base: go/packages, go/types, go/ssa of x/tools v0.29.0; the rule tables in checker/internal/rules. "
        "Assumes /repo type-checks and uses neither reflect nor unsafe (asserted on every run). Decides the named structural "
        "clauses for all inputs; run-time values of generated code are out of reach (see DESIGN.md, 'Not decided').")

# property -> (claim text, design ref, technique) ; absent => not_applicable with reason
CLAIMS = {
 "C01": ("Decided for all inputs: the written bytes are gofmt(goimports(content)) on nil-error edges; every member of the emitted-code grammar (headers × hooks × assignment sequences, two nesting levels) parses and type-checks in a synthetic package under the builder invariants; "
         "visibility is tested with the package of the very type used on every resolver step; conversions/wrappers/copy() only under their go/types judgement and never around two-value calls; unqualified type strings reach emitted text only for basic types; pointer conversions parenthesised. "
         "Correctness of every rendered leaf for every Go type shape is not decided.", "DESIGN.md §3 C01", "emitted-code grammar extraction (string analysis over the typed AST) judged by go/parser+go/types; reaching-condition and provenance rules on go/ssa"),
 "C02": ("Behaviour at run time is not decidable statically; decided are necessary conditions on what can be emitted: allocation statement iff pointer-return style and first; each template writes LHS/reads RHS; every node kind renders as documented for all guard valuations; source paths resolved from the root; reverse swap pairs variables with their own signature elements; nil guards from ObjNullable.",
         "DESIGN.md §3 C02", "template extraction with opaque leaves compared against documented renderings; reaching-condition rules on go/ssa"),
 "C03": ("Acceptance over all layouts is not decidable; decided necessary conditions: no grammar member fails to parse; markers always get a fresh comment group and the comment table is modified only on the way out of the scan; no per-element loop drops an element; notation names are resolved from the innermost scope.",
         "DESIGN.md §3 C03", "grammar members judged by go/parser; CFG/loop-membership and must-pass-through rules on go/ssa"),
 "C11": ("Carry-over through go/printer is not decidable; decided necessary conditions: doc lines emitted in order before func for 0..3 lines; forwarded doc group is the one notations were extracted from; extraction and ToTextList visit every line unfiltered with no early exit; selected interface docs emptied; module code writes only comment fields of the AST; directives stripped before printing.",
         "DESIGN.md §3 C11", "who-may-write inventory over go/ssa stores; loop-exit shape rules; template query"),
 "C13": ("Decided for all inputs: nondeterminism sources in module code = confirmed table (marker generator; file-log timestamps), no concurrency, stderr logger without timestamps, the random marker flows only into key positions, every map range is order-insensitive by shape (flag or strict-minimum fold). Determinism of external tools is not decided.",
         "DESIGN.md §3 C13", "effect inventory + loop-carried-value shape analysis on go/ssa"),
 "C16": ("Run-time aliasing is not observable statically; decided necessary conditions: slice templates have the guarded make+copy/loop shape; copy() only for identical element types; slice-ness judged on the underlying type; a slice pair reaches the plain-assignment ladder only after the copier declined, which it does only for non-assignable (and non-convertible-under-typecast) element types.",
         "DESIGN.md §3 C16", "template shape query (go/parser) + reaching-condition rules on go/ssa"),

 "C04": ("Static rules (reaching-condition gating on SSA) decide for all inputs that no String() wrapper, type conversion, converting slice loop, "
         "getter candidate or name-based candidate can be created without its opt-in flag and the go/types judgement that justifies it, that getters "
         "win over fields, and that the name/getter/stringer predicates have the documented shape. Necessary conditions of the property; the choice "
         "among several candidates is not decided.", "DESIGN.md §3 C04", "reaching-condition (gating) analysis over go/ssa + predicate-body shape rules"),
 "C05": ("Structure of the destination pass decided for all inputs: every destination field is visited once in declaration order by a loop that cannot stop early, the per-field matcher runs "
         "exactly for the fields that pass the visibility filter, its verdict can be dropped only when nil or an error is pending, every no-match verdict is preceded by a positioned warning on stderr. "
         "The covering relation for nested shapes as a whole is not decided.", "DESIGN.md §3 C05", "reaching-condition analysis + must-pass-through (path-avoiding reachability) on go/ssa"),
 "C06": ("Precedence chain decided for all inputs: skip verdict first and exclusive, default name match only after the four explicit-notation lists were exhausted, a hit returns the assignment built from that element, "
         "explicit paths compared case-sensitively on the unmodified path, keyword tables and parser switch agree, :map routes by `$`, ShouldSkip shape. Nested-path notations under an assignable struct are a recorded known finding (F18). "
         "Regexp semantics and resolution results are not decided.", "DESIGN.md §3 C06", "reaching-condition analysis over go/ssa + keyword-table/switch exhaustiveness over the typed AST"),
 "C07": ("Builder side decided for all inputs: an error-capturing assignment or hook can only be created when the method returns an error (I1, I2), error flags are computed from signatures as documented, wrappers never surround error-returning nodes. "
         "The emitted text (error check after each err assignment) is judged by the template rules when built. Run-time error identity is not decided.", "DESIGN.md §3 C07", "reaching-condition analysis + origin-term shape rules on go/ssa"),
 "C08": ("Legality rejections and IR feeding decided for all inputs: illegal combinations cannot reach a success return; Function/Var IR fields come from the documented signature elements with the documented default names. "
         "The header text itself is judged by the template rules when built.", "DESIGN.md §3 C08", "reaching-condition analysis + origin-term (value provenance) rules on go/ssa"),
 "C09": ("Non-interference shape decided for all inputs: interface options are the cell the interface-level parse wrote, fresh per interface; per-method cell local and initialised from the entry; no shared-slice aliasing is constructible; "
         "writers of shared state are exactly a confirmed table. Output equality with single-method runs is not decided.", "DESIGN.md §3 C09", "location-level value-flow (cells and their writers) + who-may-write inventory on go/ssa"),
 "C10": ("Hook validators and flag feeding decided for all hook shapes: ill-shaped hooks cannot pass lookupManipulatorFunc/buildManipulator; IR flags come from the right signature elements. Call placement/adaptation text is judged by the template rules when built. "
         "Run-time call order is not decided.", "DESIGN.md §3 C10", "reaching-condition analysis + origin-term rules on go/ssa"),
 "C12": ("Necessary structural conditions for all histories: the previous output is withheld from the loader (every ParseFile dominated by SameFile(output)==false), the output path flows only to os.Stat / goimports' name / WriteFile's name, load errors are never consulted, single whole-file write. "
         "Behaviour of `go list` on a broken file at that path is external and not decided.", "DESIGN.md §3 C12", "reaching-condition analysis + use enumeration (taint by referrers) on go/ssa"),
 "C14": ("A closed list of panic/hang/exit-path classes decided for all inputs, each with enumerated accepted idioms (tuple indexing, split/submatch indexing, discarded errors, nil packages, unchecked assertions, callback-assigned pointers, MustCompile, loop variance, well-founded recursion (guarded by-value struct descents; a table of confirmed cycles), errors captured by iteration callbacks, error propagation, all-or-nothing parsing, stderr+exit, positioned diagnostics, :literal texts parsed as expressions when read). "
         "General panic-freedom is not decidable and not claimed.", "DESIGN.md §3 C14", "interval facts from reaching conditions + inventories with exception tables on go/ssa"),
 "C15": ("Complete effect inventory of module→external calls decided for all inputs and flags: the only file-mutating calls are the output write and the log open, the write is dominated by dryRun==false and the nil-error edges, no error exit after a successful write, path is Config.Output unmodified. "
         "Effects of external programs (go list, goimports) are not decided.", "DESIGN.md §3 C15", "effect table / who-may-call inventory + reaching-condition analysis on go/ssa"),
 "C17": ("Selection decided for all inputs: an entry is created only for interface objects declared in the input file that are named Convergen or marked on their own Doc group, every scope name is examined, zero entries is an error, markers are per entry and used consistently, per-interface loops cannot drop elements. "
         "Verbatim printing of unselected interfaces is not decided.", "DESIGN.md §3 C17", "reaching-condition analysis + must-emit loop rule on go/ssa"),
 "C18": ("Shape of the CLI computation decided for all flag combinations: Config fields derive from the documented flags/env with the documented expressions, roles of Generate's parameters, success only with print off or after printing string(written bytes) as an operand. "
         "OS-level path spelling and log-open failures are not decided.", "DESIGN.md §3 C18", "origin-term (value provenance) rules + path-avoiding reachability on go/ssa"),
 "C19": ("Decided for all triples as far as code shape shows: ==/EqualFold split on the case rule over unmodified operands, no case-mapped text reaches regexp.Compile or MatchString, (?i) chosen by the case rule, plain patterns anchored and quoted, the PatternMatcher cache is always consistent with its recorded rule. "
         "Agreement of Go regexp with RE2 is not decided.", "DESIGN.md §3 C19", "φ-case value analysis + taint rule + typestate-like cache invariant on go/ssa"),
}
PENDING = {}
ALL = ["C%02d" % i for i in range(1, 20)]

def main():
    checks = []
    na = []
    for pid in ALL:
        if pid in CLAIMS:
            text, ref, tech = CLAIMS[pid]
            checks.append({
                "property_id": pid,
                "quick_cmd": "./check %s quick" % pid,
                "thorough_cmd": "./check %s thorough" % pid,
                "evidence_file": "evidence/%s.json" % pid,
                "replay_cmd_template": "./check --replay {path}",
                "engine": "cvcheck",
                "level_claimed": {"category": "other", "text": text, "design_ref": ref},
                "level_note": NOTE,
                "technique": tech,
            })
        else:
            na.append({"property_id": pid, "reason": PENDING.get(pid, "static check under construction in this round (see DESIGN.md §2.8 build order); not claimed until its rules exist and pass their self-tests")})
    m = {
        "version": 1,
        "setup_cmd": "cd checker && GOFLAGS=-mod=mod GOPROXY=off GOSUMDB=off GOTOOLCHAIN=local go build -o ../bin/cvcheck ./cmd/cvcheck",
        "hooks": {"guard": "verif", "enable": "none needed: the checks analyse the ordinary build of /repo (no instrumentation)",
                  "baseline_off_cmd": "cd /repo && go test -vet=off -count=1 ./...", "source_commits": [], "add_only": True},
        "engines": [{"name": "cvcheck", "path": "checker/", "serves_properties": sorted(CLAIMS),
                     "kind_free_text": "repository-specific static analyser: go/packages + go/types + go/ssa; reaching-condition gating, value-flow, emitted-code grammar extraction judged by go/parser+go/types, effect inventory"}],
        "checks": checks,
        "not_applicable": na,
        "notes": "All checks are static: they load /repo's current working tree with go/packages and never execute repository code. Known genuine defects are listed in known_findings.json.",
    }
    with open(os.path.join(HERE, "MANIFEST.json"), "w") as f:
        json.dump(m, f, indent=1)
        f.write("\n")

if __name__ == "__main__":
    main()
