#!/bin/sh
# usage: tools/runon.sh <tree> [property ...]
# Runs the checks (default: all) against another checkout of reedom/convergen (a work clone outside /repo and /verif)
# with a scratch evidence dir and a private build of the checker; prints alarms and known-finding lines.
set -u
TREE="$(readlink -f "$1")"; shift
VERIF="$(cd "$(dirname "$0")/.." && pwd)"
S="$(mktemp -d /tmp/runon.XXXXXX)"; trap 'rm -rf "$S"' EXIT
mkdir -p "$S/verif"
cp "${KF:-$VERIF/known_findings.json}" "$S/verif/known_findings.json"
ln -s "$VERIF/checker" "$S/verif/checker"
(cd "$VERIF/checker" && GOFLAGS=-mod=mod GOPROXY=off GOSUMDB=off GOTOOLCHAIN=local go build -o "$S/cvcheck" ./cmd/cvcheck) || exit 2
PROPS="$*"
[ -z "$PROPS" ] && PROPS="$(python3 -c "import json;print(' '.join(c['property_id'] for c in json.load(open('$VERIF/MANIFEST.json'))['checks']))")"
rc=0
for p in $PROPS; do
  out="$(VERIF_REPO="$TREE" VERIF_DIR="$S/verif" "$S/cvcheck" -property "$p" -tier "${TIER:-quick}" 2>&1)"; r=$?
  echo "== $p exit=$r"
  echo "$out" | grep -E '^(VIOLATION|UNDECIDED|KNOWN-FINDING)' | cut -c1-600
  [ $r = 0 ] || rc=1
done
exit $rc
