#!/bin/sh
# usage: tools/reapply.sh <dir-with-patch.diff> -> prints "<dir> clean|ported|stale"
# Checks that the patch still applies to /repo HEAD; if not, tries a fuzzy port (patch -F3) and rewrites patch.diff;
# if that fails too, prints "stale" (the caller moves the directory to retired/).
D="$(readlink -f "$1")"
S="$(mktemp -d /tmp/reapply.XXXXXX)"; trap 'rm -rf "$S"' EXIT
(cd /repo && git archive HEAD) | tar -x -C "$S"
cd "$S" && git init -q . && git add -A >/dev/null && git -c user.email=a@b -c user.name=x commit -qm base
if git apply --check "$D/patch.diff" 2>/dev/null; then echo "$1 clean"; exit 0; fi
if patch -p1 -F3 -s < "$D/patch.diff" >/dev/null 2>&1 && [ -z "$(find . -name '*.rej')" ]; then
  find . -name '*.orig' -delete
  if GOFLAGS=-mod=mod GOPROXY=off GOSUMDB=off GOTOOLCHAIN=local go build ./... >/dev/null 2>&1; then
    git checkout -q go.sum 2>/dev/null
    git diff HEAD -- . ':!go.sum' > "$D/patch.diff.new" && mv "$D/patch.diff.new" "$D/patch.diff"
    echo "$1 ported"; exit 0
  fi
fi
echo "$1 stale"
