#!/bin/sh
# usage: tools/validate_mutant.sh <dir with patch.diff, demo/run.sh> -> prints "<dir> apply=.. build=.. tests=.. demo_mut=.. demo_clean=.."
D="$(readlink -f "$1")"
export GOFLAGS=-mod=mod GOPROXY=off GOSUMDB=off GOTOOLCHAIN=local; unset GOWORK
S="$(mktemp -d /tmp/valmut.XXXXXX)"; trap 'rm -rf "$S"' EXIT
mkdir -p "$S/clean" "$S/mut"
(cd /repo && git archive "${BASE:-HEAD}") | tar -x -C "$S/clean"
(cd /repo && git archive "${BASE:-HEAD}") | tar -x -C "$S/mut"
apply=ok; (cd "$S/mut" && git init -q . && git apply "$D/patch.diff") >/dev/null 2>&1 || apply=FAIL
build=-; tests=-; dm=-; dc=-
if [ $apply = ok ]; then
  build=ok; (cd "$S/mut" && go build ./... ) >/dev/null 2>&1 || build=FAIL
  if [ $build = ok ]; then
    tests=ok; (cd "$S/mut" && go test -vet=off -count=1 ./... ) >"$S/test.log" 2>&1 || tests=FAIL
    $(head -1 "$D/demo/run.sh" | grep -q bash && echo bash || echo sh) "$D/demo/run.sh" "$S/mut" >"$S/demo_mut.log" 2>&1; dm=$?
    $(head -1 "$D/demo/run.sh" | grep -q bash && echo bash || echo sh) "$D/demo/run.sh" "$S/clean" >"$S/demo_clean.log" 2>&1; dc=$?
  fi
fi
echo "$1 apply=$apply build=$build tests=$tests demo_mut_exit=$dm demo_clean_exit=$dc"
