#!/bin/sh
# usage: tools/selftest.sh   — runs every check against every seeded change (must alarm) and every equivalent refactoring
# (must stay silent), 8 patches in parallel, on scratch copies outside /repo and /verif. Prints a summary; exit 1 on any miss / false alarm.
cd "$(dirname "$0")/.."
T=$(mktemp -d /tmp/selftest.XXXXXX); trap 'rm -rf "$T"' EXIT
mkdir -p "$T/s" "$T/e"
# one private build of the checker, so that edits made while the self-test runs cannot disturb it
(cd checker && GOFLAGS=-mod=mod GOPROXY=off GOSUMDB=off GOTOOLCHAIN=local go build -o "$T/cvcheck" ./cmd/cvcheck) || { echo "checker does not build"; exit 2; }
export CVBIN="$T/cvcheck"
for d in seeded/*; do mkdir -p "$T/s/x"; ln -s "$(pwd)/$d" "$T/s/x/$(basename $d)"; done
for d in selftest/equivalent/*; do mkdir -p "$T/e/x"; ln -s "$(pwd)/$d" "$T/e/x/$(basename $d)"; done
tools/allmutants.sh "$T/s" > "$T/seeded.txt" 2>&1
tools/allmutants.sh "$T/e" > "$T/equiv.txt" 2>&1
miss=$(grep -vc 'CAUGHT-BY: C' "$T/seeded.txt"); fa=$(grep -vc 'CAUGHT-BY:$' "$T/equiv.txt")
cat "$T/seeded.txt" "$T/equiv.txt"
echo "SELFTEST seeded=$(wc -l < "$T/seeded.txt") missed=$miss equivalents=$(wc -l < "$T/equiv.txt") false_alarms=$fa"
[ "$miss" = 0 ] && [ "$fa" = 0 ]
