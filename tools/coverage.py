#!/usr/bin/env python3
"""Rule-coverage report: which module functions carry no obligation of any rule.
usage: tools/coverage.py <funcs.txt from `cvcheck -dump funcs`>   (reads evidence/*.json)
An obligation is attributed to the innermost function whose line range contains its position; template obligations are
attributed to the functions the template extractor inlined (note tpl_functions_inlined)."""
import json, glob, sys, re, collections
funcs=[]
for l in open(sys.argv[1]):
    m=re.match(r'(\S+):(\d+)-(\d+) (.*)',l.strip())
    if m: funcs.append((m.group(1),int(m.group(2)),int(m.group(3)),m.group(4)))
hits=collections.Counter(); props=collections.defaultdict(set)
tplfuncs=set()
for f in glob.glob('evidence/C*.json'):
    d=json.load(open(f)); pid=d['property_id']
    inv=d['coverage'].get('inventory',{})
    for n in (inv.get('tpl_functions_inlined') or []):
        tplfuncs.add(n); 
    for o in d['coverage']['instances']:
        m=re.match(r'(\S+):(\d+)$',o.get('pos',''))
        if not m: continue
        file,line=m.group(1),int(m.group(2))
        best=None
        for (ff,a,b,name) in funcs:
            if ff==file and a<=line<=b and (best is None or (b-a)<(best[2]-best[1])): best=(ff,a,b,name)
        if best: hits[best[3]]+=1; props[best[3]].add(pid)
        # also attribute by name in the key
        for (ff,a,b,name) in funcs:
            if '@'+name+':' in o['key'] or o['key'].endswith('@'+name): hits[name]+=0.001; props[name].add(pid)
def tplhit(name):
    short=name.split('/')[-1]
    return any(t.endswith(short) or short in t for t in tplfuncs)
un=[]
for (ff,a,b,name) in sorted(funcs):
    if '_test.go' in ff: continue
    if hits[name]==0 and not tplhit(name): un.append((ff,a,b,name))
print(f"functions: {len(funcs)}  with obligations: {len(funcs)-len(un)}  without: {len(un)}")
for u in un: print("  %s:%d-%d %s"%u)
