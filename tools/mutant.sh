#!/bin/sh
# usage: tools/mutant.sh <patch.diff> [property ...]
# Applies the patch to a scratch copy of /repo (outside /repo and /verif), runs the given checks (default: all
# registered in MANIFEST.json) against it with a scratch evidence dir, prints the alarms, removes the copy.
# env: CVBIN (frozen checker binary), TIER, BASE (commit of /repo to apply to, default HEAD), KF (known-findings file).
set -u
PATCH="$(readlink -f "$1")"; shift
VERIF="$(cd "$(dirname "$0")/.." && pwd)"
S="$(mktemp -d /tmp/mutant.XXXXXX)"
trap 'rm -rf "$S"' EXIT
mkdir -p "$S/repo" "$S/verif"
(cd /repo && git archive "${BASE:-HEAD}") | tar -x -C "$S/repo"
if ! (cd "$S/repo" && git init -q . 2>/dev/null && git apply "$PATCH"); then echo "PATCH DOES NOT APPLY"; exit 2; fi
cp "${KF:-$VERIF/known_findings.json}" "$S/verif/known_findings.json"
ln -s "$VERIF/checker" "$S/verif/checker" # the positive-control module is read from the verif dir
PROPS="$*"
[ -z "$PROPS" ] && PROPS="$(python3 -c "import json;print(' '.join(c['property_id'] for c in json.load(open('$VERIF/MANIFEST.json'))['checks']))")"
[ -n "${CVBIN:-}" ] || (cd "$VERIF/checker" && GOFLAGS=-mod=mod GOPROXY=off GOSUMDB=off GOTOOLCHAIN=local go build -o ../bin/cvcheck ./cmd/cvcheck) || exit 2
caught=""
for p in $PROPS; do
  out="$(VERIF_REPO="$S/repo" VERIF_DIR="$S/verif" "${CVBIN:-$VERIF/bin/cvcheck}" -property "$p" -tier "${TIER:-quick}" 2>&1)"
  if echo "$out" | grep -q '^VIOLATION property='; then
    caught="$caught $p"
    echo "$out" | grep -E '^(VIOLATION:|UNDECIDED:)' | cut -c1-400
  fi
done
echo "CAUGHT-BY:$caught"
