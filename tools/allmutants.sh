#!/bin/sh
# usage: tools/allmutants.sh <dir-with-*/[ab]/patch.diff>  [props...]  -> one line per mutant
D="$1"; shift
for p in "$D"/*/*/patch.diff; do
  id="$(echo "$p" | sed -E 's|.*/(C[0-9]+)/([ab])/patch.diff|\1\2|')"
  res="$("$(dirname "$0")/mutant.sh" "$p" "$@" 2>&1 | grep -E 'CAUGHT-BY|DOES NOT APPLY')"
  echo "$id $res"
done
