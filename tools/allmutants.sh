#!/bin/sh
# usage: tools/allmutants.sh <dir-with-*/*/patch.diff> [props...]  -> one line per patch (8 in parallel, or $MUT_PAR)
D="$1"; shift
T="$(dirname "$0")"
export MUT_PROPS="$*"
ls "$D"/*/*/patch.diff | xargs -P ${MUT_PAR:-8} -I{} sh -c 'p="{}"; id="$(echo "$p" | sed -E "s|.*/([A-Za-z0-9]+)/([a-z0-9]+)/patch.diff|\1\2|")"; res="$('"$T"'/mutant.sh "$p" $MUT_PROPS 2>&1 | grep -E "CAUGHT-BY|DOES NOT APPLY")"; echo "$id $res"' | sort
